"""SD structures: Python objects <-> driver tokens, generators, an independent wire reader."""
from __future__ import annotations

import ipaddress
import struct

import someip.config as C
import someip.header as H

from harness import gen
from harness.gen import hx

KINDS4 = [H.IPv4EndpointOption, H.IPv4MulticastOption, H.IPv4SDEndpointOption]
KINDS6 = [H.IPv6EndpointOption, H.IPv6MulticastOption, H.IPv6SDEndpointOption]
ENTRY_TYPES = [0, 1, 6, 7]


def exc_name(e) -> str:
    if isinstance(e, H.IncompleteReadError):
        return "IncompleteReadError"
    if isinstance(e, H.ParseError):
        return "ParseError"
    if isinstance(e, struct.error):
        return "struct.error"
    if isinstance(e, UnicodeError):
        return "UnicodeDecodeError"
    return type(e).__name__


def text_tok(s):
    if s is None:
        return "~"
    return hx(bytes(ord(c) for c in s))  # code points < 256 only (generators guarantee it)


def opt_tok(o) -> str:
    if isinstance(o, H.AbstractIPOption):
        for fam, kinds in (("ip4", KINDS4), ("ip6", KINDS6)):
            for k, cls in enumerate(kinds):
                if type(o) is cls:
                    return f"{fam} {k} {hx(o.address.packed)} {int(o.l4proto)} {o.port}"
        raise TypeError(o)
    if isinstance(o, H.SOMEIPSDLoadBalancingOption):
        return f"lb {o.priority} {o.weight}"
    if isinstance(o, H.SOMEIPSDConfigOption):
        return f"cfg {len(o.configs)}" + "".join(f" {text_tok(k)} {text_tok(v)}" for k, v in o.configs)
    if isinstance(o, H.SOMEIPSDUnknownOption):
        return f"unk {o.type} {hx(o.payload)}"
    raise TypeError(o)


def opts_tok(opts) -> str:
    return f"{len(opts)}" + "".join(" " + opt_tok(o) for o in opts)


def entry_tok(e: H.SOMEIPSDEntry) -> str:
    head = f"e {int(e.sd_type)} {e.service_id} {e.instance_id} {e.major_version} {e.ttl} {e.minver_or_counter}"
    if e.options_resolved:
        return f"{head} R {opts_tok(e.options_1)} {opts_tok(e.options_2)}"
    return f"{head} I {e.option_index_1} {e.option_index_2} {e.num_options_1} {e.num_options_2}"


def sd_tok(m: H.SOMEIPSDHeader) -> str:
    return (f"sd {int(m.flag_reboot)} {int(m.flag_unicast)} {m.flags_unknown} {len(m.entries)}"
            + "".join(" " + entry_tok(e) for e in m.entries) + " " + opts_tok(m.options))


def svc_tok(s: C.Service) -> str:
    egs = sorted(s.eventgroups)
    return (f"svc {s.service_id} {s.instance_id} {s.major_version} {s.minor_version} {opts_tok(s.options_1)} "
            f"{opts_tok(s.options_2)} {len(egs)}" + "".join(f" {g}" for g in egs))


def eg_tok(g: C.Eventgroup) -> str:
    addr = ipaddress.ip_address(g.sockname[0]).packed
    return f"eg {g.service_id} {g.instance_id} {g.major_version} {g.eventgroup_id} {hx(addr)} {g.sockname[1]} {int(g.protocol)}"


# ------------------------------------------------------------------ generators


def gen_text(rng, ascii_only=True, allow_eq=False, minlen=0, maxlen=12):
    n = rng.randrange(minlen, maxlen + 1)
    alphabet = "abcXYZ019_-. " + ("=" if allow_eq else "")
    s = "".join(rng.choice(alphabet) for _ in range(n))
    if not ascii_only and n and rng.random() < 0.7:
        i = rng.randrange(n)
        s = s[:i] + chr(rng.choice([0x80, 0xE9, 0xFF])) + s[i + 1:]
    return s


def gen_option(rng, wf=True):
    """one SD option; wf=True keeps it inside C02's well-formed domain"""
    k = rng.random()
    if k < 0.3:
        cls = rng.choice(KINDS4)
        l4 = rng.choice([H.L4Protocols.UDP, H.L4Protocols.TCP, rng.choice([0, 1, 5, 7, 16, 18, 255])])
        return cls(address=ipaddress.IPv4Address(rng.randbytes(4)), l4proto=l4, port=gen.u16(rng))
    if k < 0.5:
        cls = rng.choice(KINDS6)
        l4 = rng.choice([H.L4Protocols.UDP, H.L4Protocols.TCP, rng.randrange(256)])
        return cls(address=ipaddress.IPv6Address(rng.randbytes(16)), l4proto=l4, port=gen.u16(rng))
    if k < 0.6:
        return H.SOMEIPSDLoadBalancingOption(priority=gen.u16(rng), weight=gen.u16(rng))
    if k < 0.85:
        items = []
        for _ in range(rng.choice([0, 1, 1, 2, 3, 5])):
            key = gen_text(rng, minlen=1 if wf else 0, allow_eq=not wf and rng.random() < 0.3,
                           ascii_only=wf or rng.random() < 0.7)
            r = rng.random()
            if r < 0.35:
                val = None
            elif r < 0.5:
                val = ""
            else:
                val = gen_text(rng, allow_eq=True, ascii_only=wf or rng.random() < 0.8)
            if rng.random() < 0.03:
                # boundary: 255-byte string
                val = "v" * (255 - len(key) - 1 + (0 if wf else rng.choice([0, 1])))
            items.append((key, val))
        return H.SOMEIPSDConfigOption(configs=tuple(items))
    registered = {1, 2, 4, 6, 0x14, 0x16, 0x24, 0x26}
    t = rng.choice([0, 3, 5, 7, 0x10, 0x15, 0x25, 0x27, 0x80, 0xFF] + ([] if wf else [1, 2, 4, 0x14]))
    if wf and t in registered:
        t = 0x42
    n = rng.choice([0, 0, 1, 2, 5, 9, 21, 40])
    return H.SOMEIPSDUnknownOption(type=t, payload=gen.rbytes(rng, n))


def gen_entry_fields(rng, ty=None):
    ty = rng.choice(ENTRY_TYPES) if ty is None else ty
    val = gen.u32(rng)
    if ty in (6, 7) and rng.random() < 0.9:
        val = (rng.randrange(16) << 16) | gen.u16(rng)
    return dict(sd_type=H.SOMEIPSDEntryType(ty), service_id=gen.u16(rng), instance_id=gen.u16(rng),
                major_version=gen.u8(rng), ttl=gen.u24(rng), minver_or_counter=val)


def gen_run(rng, pool, maxlen=4):
    if not pool or rng.random() < 0.25:
        return ()
    k = rng.random()
    if k < 0.55:
        # contiguous slice of the pool: creates shared / overlapping / nested runs
        n = rng.randrange(1, min(maxlen, len(pool)) + 1)
        i = rng.randrange(0, len(pool) - n + 1)
        return tuple(pool[i:i + n])
    n = rng.randrange(1, maxlen + 1)
    return tuple(rng.choice(pool) for _ in range(n))


def gen_sd(rng, wf=True, max_entries=12, big=False):
    npool = rng.choice([1, 2, 3, 4]) if rng.random() < 0.5 else rng.randrange(1, 30)
    if big:
        npool = rng.randrange(100, 301)
    pool = [gen_option(rng, wf) for _ in range(npool)]
    if big:
        # distinct options so that the shared array grows
        pool = [H.SOMEIPSDUnknownOption(type=0x42, payload=i.to_bytes(2, "big")) for i in range(npool)]
    n = rng.randrange(0, max_entries + 1)
    if big:
        n = rng.randrange(20, 45)
    maxlen = rng.choice([2, 4, 15, 15, 17]) if not big else 15
    entries = []
    for _ in range(n):
        f = gen_entry_fields(rng)
        entries.append(H.SOMEIPSDEntry(**f, options_1=gen_run(rng, pool, maxlen), options_2=gen_run(rng, pool, maxlen)))
    fu = rng.choice([0, 0, 0, 1, 2, 0x20, 0x3F, rng.randrange(64)])
    if not wf and rng.random() < 0.3:
        fu = rng.choice([0x40, 0x80, 0xC1, 0x100])
    return H.SOMEIPSDHeader(entries=tuple(entries), flag_reboot=rng.random() < 0.5, flag_unicast=rng.random() < 0.8,
                            flags_unknown=fu)


# ------------------------------------------------------------------ independent reader (written from PRS_SOMEIPSD)


def indep_read_sd(b: bytes):
    """independent decoder of the SD wire layout: returns (flags, [(type, idx1, idx2, n1, n2, sid, iid, maj, ttl, val)],
    [(opt_type, opt_payload)]) or raises ValueError"""
    if len(b) < 12:
        raise ValueError("short")
    flags = b[0]
    elen = int.from_bytes(b[4:8], "big")
    if 8 + elen + 4 > len(b) or elen % 16:
        raise ValueError("entries length")
    entries = []
    for off in range(8, 8 + elen, 16):
        e = b[off:off + 16]
        entries.append((e[0], e[1], e[2], e[3] >> 4, e[3] & 15, int.from_bytes(e[4:6], "big"),
                        int.from_bytes(e[6:8], "big"), e[8], int.from_bytes(e[9:12], "big"),
                        int.from_bytes(e[12:16], "big")))
    p = 8 + elen
    olen = int.from_bytes(b[p:p + 4], "big")
    p += 4
    if p + olen != len(b):
        raise ValueError("options length")
    opts = []
    end = p + olen
    while p < end:
        if p + 3 > end:
            raise ValueError("option header")
        ln = int.from_bytes(b[p:p + 2], "big")
        ty = b[p + 2]
        if p + 3 + ln > end:
            raise ValueError("option length")
        opts.append((ty, bytes(b[p + 3:p + 3 + ln])))
        p += 3 + ln
    return flags, entries, opts


def indep_option_wire(o):
    """(type, payload) an option must have on the wire, written from the standard"""
    if isinstance(o, H.AbstractIPOption):
        ty = {H.IPv4EndpointOption: 0x04, H.IPv4MulticastOption: 0x14, H.IPv4SDEndpointOption: 0x24,
              H.IPv6EndpointOption: 0x06, H.IPv6MulticastOption: 0x16, H.IPv6SDEndpointOption: 0x26}[type(o)]
        return ty, b"\0" + o.address.packed + b"\0" + bytes([int(o.l4proto)]) + o.port.to_bytes(2, "big")
    if isinstance(o, H.SOMEIPSDLoadBalancingOption):
        return 0x02, b"\0" + o.priority.to_bytes(2, "big") + o.weight.to_bytes(2, "big")
    if isinstance(o, H.SOMEIPSDConfigOption):
        body = b"\0"
        for k, v in o.configs:
            s = k.encode("ascii") + (b"=" + v.encode("ascii") if v is not None else b"")
            body += bytes([len(s)]) + s
        return 0x01, body + b"\0"
    return o.type, bytes(o.payload)


def indep_split_someip(data: bytes):
    """independent framing of a datagram into SOME/IP messages, written from PRS_SOMEIP: returns the list of
    (service, method, length, client, session, proto, iface, msgtype, retcode, payload) of the well-formed prefix"""
    out = []
    valid_mt = {0, 1, 2, 0x40, 0x41, 0x42, 0x80, 0x81, 0xC0, 0xC1}
    while data:
        if len(data) < 16:
            break
        sid, mid, length, cid, sess, pv, iv, mt, rc = struct.unpack("!HHIHHBBBB", data[:16])
        if length < 8 or pv != 1 or mt not in valid_mt or rc > 10 or len(data) - 8 < length:
            break
        out.append((sid, mid, length, cid, sess, pv, iv, mt, rc, data[16:8 + length]))
        data = data[8 + length:]
    return out
