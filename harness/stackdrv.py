"""Drives a real someip.sd.ServiceDiscoveryProtocol on the virtual loop with the event alphabet of the Lean
model (`stk.in / stk.run / stk.fire / stk.adv`) and renders its observable state in the driver's format."""
from __future__ import annotations

import asyncio
import re
import functools
import ipaddress
import random as _random

import someip.config as C
import someip.header as H
import someip.sd as SD

from harness import sdio, vloop
from harness.gen import hx, unhx

MC = ("224.0.0.1", 30490)
MODELLED_TASKS = {"_offer_task", "send_find_services", "_subscribe"}
MODELLED_CBS = {"handle_offer", "_expired", "_send_start_subscribe", "_send_stop_subscribe", "_send_offer",
                "_handle_timeout"}


# peers 4 and 5: one link-local IPv6 address and port reached through two interfaces - the socket addresses differ in the
# scope id only; a peer is its FULL socket address (seeded m98 merged them).  Only scenarios that ask for more than three
# peers draw them (C14).
V6_PEERS = {4: ("fe80::1", 30490, 0, 2), 5: ("fe80::1", 30490, 0, 3)}


def addr_of(n: int):
    """peer n as a socket address: peers 2h-1 and 2h live on the SAME host 10.0.0.h and differ in the port only (two SD
    instances on one machine) - a peer is its (host, port) pair, never the host alone"""
    if n in V6_PEERS:
        return V6_PEERS[n]
    return ("10.0.0.%d" % ((n + 1) // 2), 30490 + (n + 1) % 2)


def idx_of(addr) -> str:
    if addr is None or addr == MC:
        return "~"
    for n, a in V6_PEERS.items():
        if tuple(addr) == a:
            return str(n)
    h = int(addr[0].rsplit(".", 1)[1])
    return str(2 * h - 1 + (addr[1] - 30490))


class TimingsSpec:
    FIELDS = ["initMin", "initMax", "rrMin", "rrMax", "reps", "base", "cyclic", "findTtl", "annTtl", "subTtl", "refresh", "coll"]

    def __init__(self, **kw):
        d = dict(initMin=0, initMax=0, rrMin=10, rrMax=50, reps=3, base=10, cyclic=1000, findTtl=3, annTtl=3, subTtl=5,
                 refresh=3000, coll=5)
        d.update(kw)
        self.__dict__.update(d)

    def tokens(self) -> str:
        return " ".join("~" if getattr(self, f) is None else str(getattr(self, f)) for f in self.FIELDS)

    def to_impl(self) -> SD.Timings:
        ms = lambda x: x / 1000.0  # noqa: E731
        return SD.Timings(INITIAL_DELAY_MIN=ms(self.initMin), INITIAL_DELAY_MAX=ms(self.initMax),
                          REQUEST_RESPONSE_DELAY_MIN=ms(self.rrMin), REQUEST_RESPONSE_DELAY_MAX=ms(self.rrMax),
                          REPETITIONS_MAX=self.reps, REPETITIONS_BASE_DELAY=ms(self.base),
                          CYCLIC_OFFER_DELAY=ms(self.cyclic), FIND_TTL=self.findTtl, ANNOUNCE_TTL=self.annTtl,
                          SUBSCRIBE_TTL=self.subTtl,
                          SUBSCRIBE_REFRESH_INTERVAL=None if self.refresh is None else ms(self.refresh),
                          SEND_COLLECTION_TIMEOUT=ms(self.coll))


def svckey(s: C.Service) -> str:
    return f"{s.service_id} {s.instance_id} {s.major_version} {s.minor_version}"


def subkey(sub: SD.EventgroupSubscription) -> str:
    eps = sorted(sdio.opt_tok(o) for o in sub.endpoints)
    return (f"{sub.service_id} {sub.instance_id} {sub.major_version} {sub.id} {sub.counter} {len(eps)}"
            + "".join(f" [{e}]" for e in eps))


class ExtListener(SD.ClientServiceListener):
    def __init__(self, stack, lid):
        self.stack, self.lid = stack, lid

    def __hash__(self):
        return self.lid

    def __eq__(self, other):
        return isinstance(other, ExtListener) and other.lid == self.lid

    def service_offered(self, service, source):
        self.stack.out(f"offered {self.lid} {svckey(service)} from {idx_of(source)}")

    def service_stopped(self, service, source):
        self.stack.out(f"stopped {self.lid} {svckey(service)} from {idx_of(source)}")


class SrvListener(SD.ServerServiceListener):
    def __init__(self, stack, inst):
        self.stack, self.inst = stack, inst
        self.nak = set()

    def client_subscribed(self, sub, source):
        if sub.id in self.nak:
            raise SD.NakSubscription
        self.stack.out(f"subscribed {self.inst} {subkey(sub)} from {idx_of(source)}")

    def client_unsubscribed(self, sub, source):
        self.stack.out(f"unsubscribed {self.inst} {subkey(sub)} from {idx_of(source)}")


class Transport:
    def __init__(self, stack):
        self.stack = stack

    def sendto(self, data, addr=None):
        self.stack.out(f"send {idx_of(addr)} {hx(bytes(data))}")
        self.stack.sent.append((self.stack.loop.ticks, bytes(data), addr))


def parse_eg(toks):
    """eg sid iid maj egid addrhex port proto -> (Eventgroup, rest)"""
    assert toks[0] == "eg"
    sid, iid, maj, egid = (int(x) for x in toks[1:5])
    a = unhx(toks[5])
    port, proto = int(toks[6]), int(toks[7])
    if len(a) == 4:
        sock = (str(ipaddress.IPv4Address(a)), port)
    else:
        sock = (str(ipaddress.IPv6Address(a)), port, 0, 0)
    return C.Eventgroup(sid, iid, maj, egid, sock, H.L4Protocols(proto)), toks[8:]


def parse_svc_simple(toks):
    """svc sid iid maj min 0 0 k eg* (no options: filters) -> (Service, rest)"""
    assert toks[0] == "svc" and toks[5] == "0" and toks[6] == "0", toks[:8]
    sid, iid, maj, mi = (int(x) for x in toks[1:5])
    k = int(toks[7])
    egs = frozenset(int(x) for x in toks[8:8 + k])
    return C.Service(sid, iid, maj, mi, eventgroups=egs), toks[8 + k:]


class _UniformDispatch:
    def __init__(self, orig):
        self.orig = orig
        self.stack = None

    def __call__(self, a, b):
        return self.stack._uniform(a, b) if self.stack is not None and not self.stack.closed else self.orig(a, b)


class ImplStack:
    def __init__(self, tm: TimingsSpec, services, my_addr=None):
        self.my_addr = my_addr
        self.loop = vloop.new_loop()
        self.outs = []
        self.sent = []
        self.draws = []
        # several stacks may be alive at once (C04): random.uniform dispatches to the stack whose code is running
        if not isinstance(_random.uniform, _UniformDispatch):
            _random.uniform = _UniformDispatch(_random.uniform)
        _random.uniform.stack = self
        self.tm = tm
        impl_tm = tm.to_impl()
        self.p = self.loop.call(SD.ServiceDiscoveryProtocol, MC, impl_tm)
        self.p.transport = Transport(self)
        self.listeners = {}
        self.srv = [SrvListener(self, i) for i in range(len(services))]
        self.instances = [self.loop.call(SD.ServiceInstance, svc, self.srv[i], self.p.announcer, impl_tm)
                          for i, svc in enumerate(services)]
        self.nexc = 0
        # ghost observation of queue requests (C15/C10/C12): wrap the bound method on this one object
        orig_queue = self.p.announcer.queue_send

        def queue_send(entry, remote=None):
            self.out(f"queued {idx_of(remote)} {sdio.entry_tok(entry)}")
            return orig_queue(entry, remote=remote)

        self.p.announcer.queue_send = queue_send
        # ghost observation of the store-level notifications (C05/C09 whole-run theorem): instance attributes shadow the
        # two methods; `service_offered` reads them at call time
        self.slog = []
        disc = self.p.discovery
        # private names: if a refactoring renamed them the ghost is simply not observable (the state line says `?` and the
        # comparison skips it); what listeners see is compared in any case
        self.slog_ok = hasattr(disc, "_notify_service_offered") and hasattr(disc, "_notify_service_stopped")
        orig_off = getattr(disc, "_notify_service_offered", None)
        orig_stop = getattr(disc, "_notify_service_stopped", None)

        def note_offered(service, source):
            self.slog.append(f"+{svckey(service)}@{idx_of(source)}")
            return orig_off(service, source)

        def note_stopped(service, source):
            self.slog.append(f"-{svckey(service)}@{idx_of(source)}")
            return orig_stop(service, source)

        if self.slog_ok:
            disc._notify_service_offered, disc._notify_service_stopped = note_offered, note_stopped
        self.slog_seen = 0
        # ghost observation of what send_sd draws from the session storage (C08 whole-run theorem)
        self.txlog = []
        st = getattr(self.p, "session_storage", None)
        self.tx_ok = st is not None and hasattr(st, "assign_outgoing")
        orig_assign = getattr(st, "assign_outgoing", None)

        def assign_outgoing(remote):
            flag, sid = orig_assign(remote)
            self.txlog.append(f"{idx_of(remote)}:{int(bool(flag))}:{sid}")
            return flag, sid

        if self.tx_ok:
            st.assign_outgoing = assign_outgoing
        self.tx_seen = 0

    def close(self):
        if isinstance(_random.uniform, _UniformDispatch) and _random.uniform.stack is self:
            _random.uniform = _random.uniform.orig
        self.closed = True
        self.loop.shutdown()

    def _uniform(self, a, b):
        if self.draws:
            d = self.draws.pop(0) / 1000.0
            return max(a, min(d, b))
        return a

    closed = False

    def out(self, text):
        if self.closed:
            return
        self.outs.append(f"{self.loop.ticks} {text}")

    def ext(self, lid):
        if lid not in self.listeners:
            self.listeners[lid] = ExtListener(self, lid)
        return self.listeners[lid]

    # ---- naming of handles
    def name(self, h):
        """canonical name of a handle; None = asyncio plumbing that is executed eagerly (white-listed: the
        wait_cancelled helper task and gather's bookkeeping); anything unknown gets a '?' name and shows up as a divergence"""
        cb = h._callback
        for _ in range(8):   # functools.partial / partialmethod wrappers: the wrapped function names the callback
            if isinstance(cb, functools.partial):
                cb = cb.func
            else:
                break
        s = getattr(cb, "__self__", None)
        if isinstance(s, asyncio.Task):
            q = getattr(s.get_coro(), "__qualname__", "").rsplit(".", 1)[-1]
            if q in MODELLED_TASKS:
                return "task:" + q
            return None if q == "wait_cancelled" else "?task:" + q
        q = getattr(cb, "__qualname__", None) or getattr(cb, "__name__", "") or type(cb).__name__
        q = re.sub(r"[^A-Za-z0-9_.<>]", "", q)   # a label only: never an address, a comma or a bracket
        last = q.rsplit(".", 1)[-1]
        if last in MODELLED_CBS:
            return last
        if last == "connection_lost":
            part = {SD.ServiceSubscriber: "subscriber", SD.ServiceDiscover: "discovery", SD.ServiceAnnouncer: "announcer"}.get(type(s))
            return "connection_lost:" + part if part else "?connection_lost"
        if last == "_set_result_unless_cancelled":
            return "sleep"
        if q == "gather.<locals>._done_callback":
            return None
        return "?" + last

    def drain_plumbing(self):
        """run asyncio plumbing (wait_cancelled / gather bookkeeping) eagerly: it touches no library state"""
        for _ in range(1000):
            pl = [h for h in self.loop._ready if not h._cancelled and self.name(h) is None]
            if not pl:
                break
            for h in pl:
                for i, x in enumerate(self.loop._ready):
                    if x is h:
                        del self.loop._ready[i]
                        break
                else:
                    continue
                self.loop._enter()
                try:
                    h._run()
                finally:
                    self.loop._leave()
        self._collect_exceptions()

    def _collect_exceptions(self):
        while self.nexc < len(self.loop.exceptions):
            ctx = self.loop.exceptions[self.nexc]
            self.nexc += 1
            exc = ctx.get("exception")
            self.out("raised " + (sdio.exc_name(exc) if exc else "unknown"))

    # ---- events
    def state(self, n0):
        ready = [self.name(h) for h in self.loop.ready_handles()]
        timers = sorted((self.loop.deadline(h), self.loop.vseq.get(id(h), -1), self.name(h) or "?")
                        for h in self.loop._scheduled if not h._cancelled)
        def tm(h):
            return "~" if h is None else str(self.loop.vseq.get(id(h), -1))

        def handle_of(v):
            """the timer handle kept with a TimedStore entry: (callback, handle) in the anchored layout; any record that
            holds exactly one asyncio handle (or none) is read the same way"""
            items = list(v) if isinstance(v, tuple) else list(vars(v).values())
            hs = [x for x in items if isinstance(x, asyncio.Handle)]
            if len(hs) > 1:
                raise ValueError("several handles in one entry")
            return hs[0] if hs else None

        def store(ts, fmt):
            return ";".join(f"{idx_of(a)}:" + "|".join(f"{fmt(k)}#{tm(handle_of(v))}" for k, v in d.items()) for a, d in ts.store.items())

        # the store contents are internal state (anchored in the property file); if its layout is changed beyond what is
        # readable here the column is not compared ('?', recorded in the evidence) - behaviour is still compared event by event
        try:
            found = store(self.p.discovery.found_services, svckey)
        except Exception:
            found = "?"
        try:
            subs = " ".join(f"{i}>" + store(inst.subscriptions, subkey) for i, inst in enumerate(self.instances))
        except Exception:
            subs = "?"
        slog = ",".join(self.slog[self.slog_seen:]) if self.slog_ok else "?"
        self.slog_seen = len(self.slog)
        tx = ",".join(self.txlog[self.tx_seen:]) if self.tx_ok else "?"
        self.tx_seen = len(self.txlog)
        return (f"now={self.loop.ticks} outs=[{' ; '.join(self.outs[n0:])}] ready=[{','.join(str(r) for r in ready)}] "
                f"timers=[{','.join(f'{q}@{d}:{n}' for d, q, n in timers)}]"
                f" found=[{found}] subs=[{subs}] slog=[{slog}] tx=[{tx}]")

    def apply(self, line: str) -> str:
        """line: 'in <input>' | 'run' | 'fire q' | 'adv t'"""
        if isinstance(_random.uniform, _UniformDispatch):
            _random.uniform.stack = self
        else:
            _random.uniform = _UniformDispatch(_random.uniform)
            _random.uniform.stack = self
        toks = line.split()
        n0 = len(self.outs)
        kind = toks[0]
        if kind == "in":
            try:
                self.loop.call(self._input, toks[1:])
            except Exception as e:  # noqa: BLE001
                self.out("raised " + sdio.exc_name(e))
        elif kind == "run":
            self.drain_plumbing()
            hs = self.loop.ready_handles()
            if not hs:
                return "disabled"
            h = hs[0]
            for i, x in enumerate(self.loop._ready):
                if x is h:
                    del self.loop._ready[i]
                    break
            self.loop._enter()
            try:
                h._run()
            finally:
                self.loop._leave()
        elif kind == "fire":
            q = int(toks[1])
            cand = [h for h in self.loop.due() if self.loop.vseq.get(id(h)) == q]
            if not cand:
                return "disabled"
            self.loop.fire_handle(cand[0])
        elif kind == "adv":
            t = int(toks[1])
            self.drain_plumbing()
            nd = self.loop.next_deadline()
            if self.loop.ready_handles() or t <= self.loop.ticks or (nd is not None and t > nd):
                return "disabled"
            self.loop.ticks = t
        else:
            raise ValueError(line)
        self.drain_plumbing()
        return "ok " + self.state(n0)

    def _listener(self, toks):
        if toks[0] == "ext":
            return self.ext(int(toks[1])), toks[2:]
        assert toks[0] == "auto"
        eg, rest = parse_eg(toks[1:])
        return SD.AutoSubscribeServiceListener(self.p.subscriber, eg), rest

    def _adapters(self):
        """the asyncio-facing glue of create_endpoints: one DatagramProtocolAdapter per socket (unicast, multicast).  Inputs
        go through it when the class is there (found uncovered by the mutation sweep: dropped forwarding calls)"""
        if getattr(self, "_ad", None) is None:
            try:
                A = SD.DatagramProtocolAdapter
                self._ad = (A(self.p, is_multicast=False), A(self.p, is_multicast=True))
            except Exception:  # noqa: the glue class was renamed / re-shaped: drive the protocol directly
                self._ad = False
        return self._ad

    def _input(self, t):
        p = self.p
        op = t[0]
        ad = self._adapters()
        if op == "start":
            p.start()
        elif op == "stop":
            p.stop()
        elif op == "connLost":
            (ad[0] if ad else p).connection_lost(None)
        elif op == "annStop":
            p.announcer.stop()
        elif op == "annStart":
            p.announcer.start()
        elif op == "dgram":
            if ad:
                ad[1 if t[2] == "1" else 0].datagram_received(unhx(t[3]), addr_of(int(t[1])))
            else:
                p.datagram_received(unhx(t[3]), addr_of(int(t[1])), t[2] == "1")
        elif op in ("watch", "unwatch"):
            f, rest = parse_svc_simple(t[1:])
            l, _ = self._listener(rest)
            wrapper = getattr(p.discovery, "find_subscribe_eventgroup" if op == "watch" else "stop_find_subscribe_eventgroup", None)
            if isinstance(l, SD.AutoSubscribeServiceListener) and wrapper is not None and l.eventgroup.as_service() == f:
                # the convenience wrapper of exactly this registration (found uncovered by the mutation sweep: the call inside
                # it deferred with call_soon)
                wrapper(l.eventgroup)
            else:
                (p.discovery.watch_service if op == "watch" else p.discovery.stop_watch_service)(f, l)
        elif op == "watchAll":
            p.discovery.watch_all_services(self.ext(int(t[1])))
        elif op == "unwatchAll":
            p.discovery.stop_watch_all_services(self.ext(int(t[1])))
        elif op in ("subscribe", "stopSubscribe"):
            eg, rest = parse_eg(t[1:])
            d = addr_of(int(rest[0]))
            (p.subscriber.subscribe_eventgroup if op == "subscribe" else p.subscriber.stop_subscribe_eventgroup)(eg, d)
        elif op == "announce":
            p.announcer.announce_service(self.instances[int(t[1])])
        elif op == "stopAnnounce":
            p.announcer.stop_announce_service(self.instances[int(t[1])], t[2] == "1")
        elif op == "setNak":
            self.srv[int(t[1])].nak = set(int(x) for x in t[3:3 + int(t[2])])
        elif op == "draws":
            self.draws += [int(x) for x in t[2:2 + int(t[1])]]
        else:
            raise ValueError(t)


def new_line(name, tm: TimingsSpec, services) -> str:
    return f"stk.new {name} {tm.tokens()} {len(services)}" + "".join(" " + sdio.svc_tok(s) for s in services)


def model_line(name, ev: str) -> str:
    toks = ev.split(" ", 1)
    if toks[0] == "in":
        return f"stk.in {name} {toks[1]}"
    if toks[0] == "run":
        return f"stk.run {name}"
    return f"stk.{toks[0]} {name} {toks[1]}"


class Policy:
    """chooses scheduler events between inputs, reading the implementation's loop (steering only)"""

    def __init__(self, rng, adversarial=True):
        self.rng = rng
        self.adversarial = adversarial

    def settle_events(self, impl: ImplStack, until=None, max_events=400):
        """yield events that bring the loop to idle (and optionally the clock to `until`), natural order"""
        raise NotImplementedError


def run_script(model, tm, services, script, name="s"):
    """script: generator function(impl) yielding event strings, free to inspect impl between events.
    Returns (events, impl_states, model_states, first_divergence_index or None)."""
    impl = ImplStack(tm, services)
    evs, istates = [], []
    try:
        first = "ok " + impl.state(0)
        for ev in script(impl):
            evs.append(ev)
            istates.append(impl.apply(ev))
    finally:
        impl.close()
    lines = [new_line(name, tm, services)] + [model_line(name, e) for e in evs]
    outs = model.run(lines)
    mstates = outs[1:]
    div = None
    if outs[0] != first:
        div = -1
    else:
        for i, (a, b) in enumerate(zip(istates, mstates)):
            if a != b:
                div = i
                break
    return evs, istates, mstates, div, (first, outs[0])
