#!/usr/bin/env python3
"""regenerates MANIFEST.json from the table below (run after adding a property check)"""
import json, os
HERE = os.path.dirname(os.path.dirname(os.path.abspath(__file__)))
ALL = [f"C{i:02d}" for i in range(1, 21)]
TB = ("Trusted: Lean 4.33 kernel (axioms at most propext, Classical.choice, Quot.sound; audited every run), the hand-written "
      "model's faithfulness (validated each run by the differential correspondence cases and the AST constant tie, i.e. by "
      "testing), the Python harness and the Lean driver's parsing/printing glue, CPython/asyncio semantics as modelled "
      "(DESIGN.md section 8).")
CHECKS = {
    "C01": dict(
        text="Machine-checked Lean 4 theorems (c01_build_layout, c01_build_rejects, c01_parse_layout, c01_roundtrip, "
             "c01_parse_other_version, c01_parse_sound, c01_datagram_concat, c01_datagram_prefix) over a model of "
             "SOMEIPHeader.build/parse and the datagram loop, for all field values, payloads, suffixes and message counts; "
             "model tied to the code by differential cases each run; oracle = the spec layout evaluated by Lean.",
        ref="5.1 C01", technique="Lean 4 proof over hand-written model + differential correspondence"),
}
NA_REASON = "not yet covered by the machinery at this commit (work in progress; planned in DESIGN.md section 5)"

def main():
    checks = []
    for pid, c in CHECKS.items():
        checks.append({
            "property_id": pid,
            "quick_cmd": f"./check {pid} --tier quick",
            "thorough_cmd": f"./check {pid} --tier thorough",
            "evidence_file": f"evidence/{pid}.json",
            "replay_cmd_template": f"./check {pid} --replay {{path}}",
            "engine": "lean4-model+correspondence",
            "level_claimed": {"category": "proof", "text": c["text"], "design_ref": c["ref"]},
            "level_note": c.get("note", "") + TB,
            "technique": c["technique"],
        })
    man = {
        "version": 1,
        "setup_cmd": "cd lean && lake build",
        "hooks": {"guard": "PYSOMEIP_VERIF", "enable": "no hooks are needed: all observation points are reachable with fakes and recorders",
                  "baseline_off_cmd": "cd /repo && /venv/bin/python -m pytest -q -p no:cacheprovider --timeout=900",
                  "source_commits": [], "add_only": True},
        "engines": [{"name": "lean4-model+correspondence", "path": "lean/ harness/ check",
                     "serves_properties": sorted(CHECKS), "kind_free_text": "Lean 4 theorems about a hand-written executable model; per-run differential correspondence against /repo/src; Lean-evaluated oracles"}],
        "checks": checks,
        "not_applicable": [{"property_id": p, "reason": NA_REASON} for p in ALL if p not in CHECKS],
        "notes": "See DESIGN.md. Exit codes: 0 held, 1 violation, 2 infrastructure/timeout.",
    }
    json.dump(man, open(os.path.join(HERE, "MANIFEST.json"), "w"), indent=1)

if __name__ == "__main__":
    main()
