#!/usr/bin/env python3
"""Regression over every seeded change: apply it to /repo, run the quick check of each property it is recorded to break
(or, for a behaviour-preserving refactoring, of each property listed in its meta), revert.  Prints one line per pair.
Usage: tools/regress_seeded.py [name-prefix ...]    (nothing else may use /repo while this runs)"""
import json, os, subprocess, sys

ROOT = "/verif/seeded"
names = sorted(os.listdir(ROOT))
if len(sys.argv) > 1:
    names = [n for n in names if any(n.startswith(p) for p in sys.argv[1:])]
bad = 0
for n in names:
    meta = json.load(open(f"{ROOT}/{n}/meta.json"))
    harmless = n.startswith("harmless")
    pids = list(meta.get("checks_run", {})) if harmless else meta.get("breaks", [])
    patch = f"{ROOT}/{n}/patch.diff"
    if subprocess.run(["git", "-C", "/repo", "apply", patch]).returncode != 0:
        print(f"{n}: PATCH DOES NOT APPLY"); bad += 1; continue
    try:
        for pid in pids:
            p = subprocess.run(["./check", pid, "--tier", "quick"], cwd="/verif", stdout=subprocess.PIPE, stderr=subprocess.DEVNULL, text=True,
                               env=dict(os.environ, VERIF_EVIDENCE_DIR="/tmp/verif-evidence-scratch"))
            viol = [l for l in p.stdout.splitlines() if l.startswith("VIOLATION")]
            nf = any("no-failing-input-found" in l for l in viol)
            if harmless:
                ok = p.returncode == 0 and not viol
                verdict = "quiet" if ok else "FALSE ALARM"
            else:
                ok = bool(viol)
                verdict = ("detected (no-failing-input-found)" if nf else "detected with replay") if ok else "MISSED"
            bad += 0 if ok else 1
            print(f"{n:55s} {pid}: {verdict}", flush=True)
    finally:
        subprocess.run(["git", "-C", "/repo", "checkout", "--", "."])
print("problems:", bad)
sys.exit(1 if bad else 0)
