#!/bin/sh
# usage: tools/verify_mutant.sh <worktree>   -- confirms: suite passes with patch; demo fails with patch, passes without
WT="$1"
cd "$WT" || exit 2
git checkout -q -- src; git apply _mutant/patch.diff || { echo "patch does not apply"; exit 2; }
SUITE=$(PYTHONPATH=$WT/src /venv/bin/python -m pytest -q -p no:cacheprovider --timeout=900 2>&1 | tail -1)
PYTHONPATH=$WT/src timeout 300 /venv/bin/python _mutant/demo.py >/dev/null 2>&1; RC1=$?
git checkout -q -- src
PYTHONPATH=$WT/src timeout 300 /venv/bin/python _mutant/demo.py >/dev/null 2>&1; RC0=$?
git apply _mutant/patch.diff
echo "suite_with_patch: $SUITE | demo_with_patch_rc=$RC1 | demo_without_patch_rc=$RC0"
