#!/usr/bin/env python3
"""Systematic mutation sweep (validation tooling, not a registered check).

Enumerates small syntactic mutations of /repo/src/someip/*.py (comparison / boolean / arithmetic operator swaps, constant
off-by-one, dropped call statements, negated conditions, early `continue`/`return` removal), keeps those that still pass
the complete existing test suite (stage A), and runs the 20 quick checks against each survivor (stage B) in private scratch
copies of /repo and /verif (VERIF_REPO), 16 in parallel.  Mutants that survive both stages are either equivalent mutants
(no property is broken) or detection gaps: they are listed for manual triage.

  tools/mutsweep.py enumerate  [--seed N] [--max N]          -> /tmp/ms/mutants.jsonl
  tools/mutsweep.py run        [--workers 16] [--only IDs]    -> /tmp/ms/results.jsonl
  tools/mutsweep.py recheck    [--workers 6]                   re-runs the test-suite kills with one retry (the suite
                                                               sleeps in real time and is flaky under load) -> results2.jsonl
  tools/mutsweep.py report
  tools/mutsweep.py clean                                      removes /tmp/ms

Everything lives under /tmp/ms and is removed by `clean`; nothing here is needed by a MANIFEST command.
"""
import ast, copy, json, os, random, shutil, subprocess, sys, time, concurrent.futures as cf

ROOT = "/tmp/ms"
FILES = ["sd.py", "header.py", "config.py", "service.py"]
CHECKS = ["C01", "C02", "C03", "C20", "C19", "C18", "C16", "C07", "C17", "C08", "C05", "C09", "C06", "C10", "C11", "C12", "C13",
          "C14", "C15", "C04"]

CMP = {ast.Lt: ast.LtE, ast.LtE: ast.Lt, ast.Gt: ast.GtE, ast.GtE: ast.Gt, ast.Eq: ast.NotEq, ast.NotEq: ast.Eq,
       ast.In: ast.NotIn, ast.NotIn: ast.In, ast.Is: ast.IsNot, ast.IsNot: ast.Is}
BIN = {ast.Add: ast.Sub, ast.Sub: ast.Add, ast.Mult: ast.FloorDiv, ast.LShift: ast.RShift, ast.RShift: ast.LShift,
       ast.BitOr: ast.BitAnd, ast.BitAnd: ast.BitOr, ast.Pow: ast.Mult}


# identifiers a maintainer can plausibly confuse: every occurrence as attribute or plain name is swapped with its partner
SWAPS = [("options_1", "options_2"), ("option_index_1", "option_index_2"), ("num_options_1", "num_options_2"),
         ("service_id", "instance_id"), ("major_version", "minor_version"), ("INITIAL_DELAY_MIN", "INITIAL_DELAY_MAX"),
         ("REQUEST_RESPONSE_DELAY_MIN", "REQUEST_RESPONSE_DELAY_MAX"), ("flag_reboot", "flag_unicast"),
         ("old_flag", "flag"), ("old_session_id", "session_id"), ("service_offered", "service_stopped"),
         ("client_subscribed", "client_unsubscribed"), ("_send_start_subscribe", "_send_stop_subscribe"),
         ("ANNOUNCE_TTL", "SUBSCRIBE_TTL"), ("FIND_TTL", "ANNOUNCE_TTL"), ("incoming", "outgoing"), ("oi1", "oi2"), ("no1", "no2"),
         ("_notify_service_offered", "_notify_service_stopped"), ("callback_new", "callback_expired"),
         ("watched_services", "found_services"), ("multicast", "flag"), ("addr", "remote"), ("min", "max"),
         ("subscribe", "unsubscribe"), ("start", "stop"), ("eventgroup_id", "eventgroup_counter"),
         ("endpoint", "source"), ("REPETITIONS_BASE_DELAY", "CYCLIC_OFFER_DELAY"), ("TTL_FOREVER", "SD_PORT")]
SWAPMAP = {}
for _a, _b in SWAPS:
    SWAPMAP.setdefault(_a, []).append(_b)
    SWAPMAP.setdefault(_b, []).append(_a)


def sites(tree):
    """yield (path-of-node, kind, variant) for every mutation site; path = list of (field, index) from the module"""
    out = []

    def walk(node, path):
        if isinstance(node, ast.Compare):
            for i, op in enumerate(node.ops):
                if type(op) in CMP:
                    out.append((path, "cmp", i))
        if isinstance(node, ast.BoolOp):
            out.append((path, "boolop", 0))
            if len(node.values) >= 2:
                out.append((path, "booldrop", 0))
                out.append((path, "booldrop", len(node.values) - 1))
        if isinstance(node, ast.BinOp) and type(node.op) in BIN:
            out.append((path, "binop", 0))
        if isinstance(node, ast.UnaryOp) and isinstance(node.op, ast.Not):
            out.append((path, "unnot", 0))
        if isinstance(node, ast.Constant) and isinstance(node.value, int) and not isinstance(node.value, bool):
            out.append((path, "const", +1))
            if node.value > 0:
                out.append((path, "const", -1))
        if isinstance(node, ast.Constant) and isinstance(node.value, bool):
            out.append((path, "boolconst", 0))
        if isinstance(node, (ast.If, ast.While)):
            out.append((path, "negcond", 0))
        if isinstance(node, ast.IfExp):
            out.append((path, "negcond", 0))
        if isinstance(node, ast.Expr) and isinstance(node.value, (ast.Call, ast.Await)):
            v = node.value.value if isinstance(node.value, ast.Await) else node.value
            if isinstance(v, ast.Call):
                name = ast.unparse(v.func)
                if "log" not in name.lower() and "warn" not in name.lower() and not name.startswith("super"):
                    out.append((path, "dropcall", 0))
        if isinstance(node, (ast.Continue, ast.Break)):
            out.append((path, "dropjump", 0))
        if isinstance(node, ast.Return) and node.value is None:
            out.append((path, "dropjump", 0))
        if isinstance(node, ast.AugAssign):
            out.append((path, "augop", 0))
        if isinstance(node, ast.Attribute) and node.attr in SWAPMAP and isinstance(node.ctx, ast.Load):
            for j in range(len(SWAPMAP[node.attr])):
                out.append((path, "attrswap", j))
        if isinstance(node, ast.Name) and node.id in SWAPMAP and isinstance(node.ctx, ast.Load):
            for j in range(len(SWAPMAP[node.id])):
                out.append((path, "nameswap", j))
        if isinstance(node, ast.keyword) and node.arg in SWAPMAP:
            for j in range(len(SWAPMAP[node.arg])):
                out.append((path, "kwswap", j))
        # result / exception operators: a value-returning `return` returns None, a raised exception changes its class, an
        # except clause catches a different class
        if isinstance(node, ast.Return) and node.value is not None and not (isinstance(node.value, ast.Constant) and node.value.value is None):
            out.append((path, "retnone", 0))
        if isinstance(node, ast.Raise) and isinstance(node.exc, ast.Call) and isinstance(node.exc.func, (ast.Name, ast.Attribute)):
            out.append((path, "raisewrong", 0))
        if isinstance(node, ast.ExceptHandler) and node.type is not None and isinstance(node.type, (ast.Name, ast.Attribute)):
            out.append((path, "exceptswap", 0))
        # asyncio operators: an awaited call not awaited, a sleep shortened to 0, a task awaited in place, a wait dropped
        if isinstance(node, ast.Expr) and isinstance(node.value, ast.Await):
            out.append((path, "unawait", 0))
            inner = node.value.value
            if isinstance(inner, ast.Call) and ast.unparse(inner.func).endswith("sleep") and inner.args:
                out.append((path, "sleepzero", 0))
        if isinstance(node, ast.Assign) and isinstance(node.value, ast.Await):
            inner = node.value.value
            if isinstance(inner, ast.Call) and ast.unparse(inner.func).endswith("sleep") and inner.args:
                out.append((path, "sleepzero", 0))
        # ordering operators: a deferred call made directly, a direct notification deferred, two neighbouring statements swapped
        if isinstance(node, ast.Expr) and isinstance(node.value, ast.Call):
            c = node.value
            fn = ast.unparse(c.func)
            if fn.endswith("call_soon") and c.args:
                out.append((path, "undefer", 0))
            elif isinstance(c.func, ast.Attribute) and not c.keywords and not fn.endswith(("append", "add", "remove", "discard", "cancel",
                    "clear", "info", "debug", "warning", "error", "exception", "call_soon", "call_later", "create_task", "set", "pop")) \
                    and "log" not in fn:
                out.append((path, "defer", 0))
        for field, value in ast.iter_fields(node):
            if field in ("body", "orelse", "finalbody") and isinstance(value, list):
                for j in range(len(value) - 1):
                    a, b = value[j], value[j + 1]
                    if isinstance(a, (ast.Expr, ast.Assign, ast.AugAssign)) and isinstance(b, (ast.Expr, ast.Assign, ast.AugAssign)) \
                            and not (isinstance(a, ast.Expr) and isinstance(a.value, ast.Constant)):
                        out.append((path + [(field, j)], "swapstmt", 0))
        if isinstance(node, ast.Call) and len(node.args) >= 2 and not node.keywords and all(
                isinstance(a, (ast.Name, ast.Attribute)) for a in node.args[:2]):
            out.append((path, "argswap", 0))
        for field, value in ast.iter_fields(node):
            if isinstance(value, list):
                for i, v in enumerate(value):
                    if isinstance(v, ast.AST):
                        walk(v, path + [(field, i)])
            elif isinstance(value, ast.AST):
                walk(value, path + [(field, None)])

    walk(tree, [])
    return out


def get(node, path):
    for f, i in path:
        node = getattr(node, f)
        if i is not None:
            node = node[i]
    return node


def setnode(root, path, new):
    parent = get(root, path[:-1])
    f, i = path[-1]
    if i is None:
        setattr(parent, f, new)
    else:
        getattr(parent, f)[i] = new


def in_skipped_context(tree, path):
    """skip __str__/__repr__/description, logging-only code, type annotations, the Windows/QNX branches, argparse tools"""
    node = tree
    for f, i in path:
        node = getattr(node, f)
        if i is not None:
            node = node[i]
        if isinstance(node, (ast.FunctionDef, ast.AsyncFunctionDef)) and node.name in (
                "__str__", "__repr__", "description", "_create_endpoint", "create_endpoints", "__post_init__x"):
            return True
        if f in ("annotation", "returns", "decorator_list"):
            return True
    return False


def mutate(src, path, kind, var):
    tree = ast.parse(src)
    node = get(tree, path)
    desc = None
    if kind == "cmp":
        old = type(node.ops[var]).__name__
        node.ops[var] = CMP[type(node.ops[var])]()
        desc = f"{old}->{type(node.ops[var]).__name__}"
    elif kind == "boolop":
        node.op = ast.Or() if isinstance(node.op, ast.And) else ast.And()
        desc = "and<->or"
    elif kind == "booldrop":
        vals = list(node.values)
        del vals[var]
        new = vals[0] if len(vals) == 1 else ast.BoolOp(op=node.op, values=vals)
        setnode(tree, path, new)
        desc = f"drop operand {var}"
    elif kind == "binop":
        old = type(node.op).__name__
        node.op = BIN[type(node.op)]()
        desc = f"{old}->{type(node.op).__name__}"
    elif kind == "unnot":
        setnode(tree, path, node.operand)
        desc = "drop not"
    elif kind == "const":
        desc = f"{node.value}->{node.value + var}"
        node.value = node.value + var
    elif kind == "boolconst":
        desc = f"{node.value}->{not node.value}"
        node.value = not node.value
    elif kind == "negcond":
        node.test = ast.UnaryOp(op=ast.Not(), operand=node.test)
        desc = "negate condition"
    elif kind == "dropcall":
        desc = "drop call " + ast.unparse(node)[:60]
        setnode(tree, path, ast.Pass())
    elif kind == "dropjump":
        desc = "drop " + type(node).__name__.lower()
        setnode(tree, path, ast.Pass())
    elif kind == "attrswap":
        desc = f".{node.attr}->.{SWAPMAP[node.attr][var]}"
        node.attr = SWAPMAP[node.attr][var]
    elif kind == "nameswap":
        desc = f"{node.id}->{SWAPMAP[node.id][var]}"
        node.id = SWAPMAP[node.id][var]
    elif kind == "kwswap":
        desc = f"{node.arg}=->{SWAPMAP[node.arg][var]}="
        node.arg = SWAPMAP[node.arg][var]
    elif kind == "argswap":
        desc = "swap first two arguments of " + ast.unparse(node.func)[:40]
        node.args[0], node.args[1] = node.args[1], node.args[0]
    elif kind == "unawait":
        desc = "not awaited: " + ast.unparse(node.value.value)[:50]
        node.value = node.value.value
    elif kind == "sleepzero":
        call = node.value.value
        desc = "sleep(0) instead of " + ast.unparse(call)[:50]
        call.args[0] = ast.Constant(value=0)
    elif kind == "retnone":
        desc = "return None instead of " + ast.unparse(node.value)[:50]
        node.value = ast.Constant(value=None)
    elif kind == "raisewrong":
        old_name = ast.unparse(node.exc.func)
        new_name = "ValueError" if old_name.split(".")[-1] != "ValueError" else "KeyError"
        desc = f"raise {new_name} instead of {old_name}"
        node.exc.func = ast.Name(id=new_name, ctx=ast.Load())
        node.exc.args = node.exc.args[:1]
        node.exc.keywords = []
    elif kind == "exceptswap":
        old_name = ast.unparse(node.type)
        new_name = "ValueError" if old_name.split(".")[-1] != "ValueError" else "KeyError"
        desc = f"except {new_name} instead of {old_name}"
        node.type = ast.Name(id=new_name, ctx=ast.Load())
    elif kind == "undefer":
        c = node.value
        desc = "call directly instead of call_soon: " + ast.unparse(c.args[0])[:50]
        node.value = ast.Call(func=c.args[0], args=c.args[1:], keywords=[])
    elif kind == "defer":
        c = node.value
        desc = "defer with call_soon: " + ast.unparse(c.func)[:50]
        node.value = ast.Call(func=ast.Attribute(value=ast.Call(func=ast.Attribute(value=ast.Name(id="asyncio", ctx=ast.Load()),
                              attr="get_event_loop", ctx=ast.Load()), args=[], keywords=[]), attr="call_soon", ctx=ast.Load()),
                              args=[c.func] + list(c.args), keywords=[])
    elif kind == "swapstmt":
        parent = get(tree, path[:-1])
        f, j = path[-1]
        lst = getattr(parent, f)
        desc = "swap statements: " + ast.unparse(lst[j])[:35] + " <-> " + ast.unparse(lst[j + 1])[:35]
        lst[j], lst[j + 1] = lst[j + 1], lst[j]
    elif kind == "augop":
        old = type(node.op).__name__
        node.op = ast.Sub() if isinstance(node.op, ast.Add) else ast.Add()
        desc = f"aug {old}->{type(node.op).__name__}"
    ast.fix_missing_locations(tree)
    return ast.unparse(tree), desc


def enumerate_mutants(seed, maxn, kinds=None):
    os.makedirs(ROOT, exist_ok=True)
    rng = random.Random(seed)
    allm = []
    for fn in FILES:
        src = open(f"/repo/src/someip/{fn}").read()
        tree = ast.parse(src)
        for path, kind, var in sites(tree):
            if in_skipped_context(tree, path) or (kinds and kind not in kinds):
                continue
            node = get(tree, path)
            allm.append(dict(file=fn, path=path, kind=kind, var=var, line=getattr(node, "lineno", 0)))
    rng.shuffle(allm)
    # stratify: at most maxn, but keep the kind distribution
    sel = allm[:maxn]
    sel.sort(key=lambda m: (m["file"], m["line"], m["kind"], m["var"]))
    with open(f"{ROOT}/mutants.jsonl", "w") as f:
        for i, m in enumerate(sel):
            m["id"] = i
            f.write(json.dumps(m) + "\n")
    print(f"{len(allm)} sites, {len(sel)} selected -> {ROOT}/mutants.jsonl")
    from collections import Counter
    print(Counter((m["file"], m["kind"]) for m in sel))


def prepare_worker(k):
    w = f"{ROOT}/w{k}"
    if os.path.exists(w):
        shutil.rmtree(w)
    os.makedirs(w)
    subprocess.run(["rsync", "-a", "--exclude", ".git", "/repo/", f"{w}/repo/"], check=True)
    subprocess.run(["rsync", "-a", "--exclude", ".git", "--exclude", "replays", "/verif/", f"{w}/verif/"], check=True)
    return w


def run_one(args):
    m, k = args
    w = f"{ROOT}/w{k}"
    fn = m["file"]
    orig = open(f"/repo/src/someip/{fn}").read()
    res = dict(id=m["id"], file=fn, line=m["line"], kind=m["kind"])
    try:
        if m["kind"] == "identity":
            new, desc = ast.unparse(ast.parse(orig)), "identity (unparse only)"
        else:
            new, desc = mutate(orig, [tuple(p) for p in m["path"]], m["kind"], m["var"])
    except Exception as e:  # noqa
        res.update(stage="gen", outcome="error", detail=repr(e))
        return res
    res["desc"] = desc
    try:
        compile(new, fn, "exec")
    except SyntaxError as e:
        res.update(stage="gen", outcome="syntax", detail=str(e))
        return res
    # reset worker repo sources, then write the mutant
    for f in FILES:
        shutil.copy(f"/repo/src/someip/{f}", f"{w}/repo/src/someip/{f}")
    open(f"{w}/repo/src/someip/{fn}", "w").write(new)
    env = dict(os.environ, PYTHONPATH=f"{w}/repo/src", PYTHONDONTWRITEBYTECODE="1")
    t0 = time.time()
    try:
        p = subprocess.run(["/venv/bin/python", "-m", "pytest", "-x", "-q", "-p", "no:cacheprovider", "--timeout=30"],
                           cwd=f"{w}/repo", env=env, capture_output=True, text=True, timeout=240)
        tail = p.stdout.strip().splitlines()[-1] if p.stdout.strip() else ""
        passed = p.returncode == 0
    except subprocess.TimeoutExpired:
        tail, passed = "timeout", False
    res["tests"] = tail
    res["t_tests"] = round(time.time() - t0, 1)
    if not passed and os.environ.get("MS_RETRY"):
        # the suite sleeps in real time: under load a test can fail spuriously - a kill must be reproducible
        try:
            p = subprocess.run(["/venv/bin/python", "-m", "pytest", "-x", "-q", "-p", "no:cacheprovider", "--timeout=30"],
                               cwd=f"{w}/repo", env=env, capture_output=True, text=True, timeout=240)
            passed = p.returncode == 0
            res["tests_retry"] = p.stdout.strip().splitlines()[-1] if p.stdout.strip() else ""
        except subprocess.TimeoutExpired:
            passed = False
    if not passed:
        res.update(stage="A", outcome="killed-by-tests")
        return res
    # stage B: the quick checks
    env2 = dict(os.environ, VERIF_REPO=f"{w}/repo")
    env2.pop("PYTHONPATH", None)
    t0 = time.time()
    caught = None
    broken = []
    for c in CHECKS:
        try:
            p = subprocess.run([f"{w}/verif/check", c, "--tier", "quick", "--seed", "0"], cwd=f"{w}/verif", env=env2,
                               capture_output=True, text=True, timeout=400)
            rc = p.returncode
            last = (p.stdout.strip().splitlines() or [""])[-1]
        except subprocess.TimeoutExpired:
            rc, last = 2, "timeout"
        if rc == 1:
            caught = c
            res["verdict"] = last[:300]
            break
        if rc != 0:
            broken.append((c, rc, last[:200]))
    res["t_checks"] = round(time.time() - t0, 1)
    if caught:
        res.update(stage="B", outcome="caught", by=caught)
    else:
        res.update(stage="B", outcome="SURVIVED", broken=broken)
    return res


def run(workers, only, outname="results.jsonl"):
    ms = [json.loads(l) for l in open(f"{ROOT}/mutants.jsonl")]
    done = set()
    if os.path.exists(f"{ROOT}/{outname}"):
        done = {json.loads(l)["id"] for l in open(f"{ROOT}/{outname}")}
    if only:
        ms = [m for m in ms if m["id"] in only and m["id"] not in done]
    else:
        ms = [m for m in ms if m["id"] not in done]
    if not any(m.get("kind") == "identity" for m in ms) and -1 not in done and not only:
        ms.insert(0, dict(id=-1, file="sd.py", path=[], kind="identity", var=0, line=0))
    print(f"{len(ms)} mutants to run on {workers} workers")
    for k in range(workers):
        prepare_worker(k)
    import queue, threading
    q = queue.Queue()
    for m in ms:
        q.put(m)
    lock = threading.Lock()
    out = open(f"{ROOT}/{outname}", "a")

    def worker(k):
        while True:
            try:
                m = q.get_nowait()
            except queue.Empty:
                return
            r = run_one((m, k))
            with lock:
                out.write(json.dumps(r) + "\n")
                out.flush()
                print(f"[{r['id']}] {r.get('file')}:{r.get('line')} {r.get('kind')} {r.get('desc','')[:50]} -> {r['outcome']} {r.get('by','')}", flush=True)

    ts = [threading.Thread(target=worker, args=(k,)) for k in range(workers)]
    for t in ts:
        t.start()
    for t in ts:
        t.join()


def report():
    rs = [json.loads(l) for l in open(f"{ROOT}/results.jsonl")]
    for extra in ("results2.jsonl", "results3.jsonl"):   # recheck of the test-suite kills; re-run of the survivors
        if os.path.exists(f"{ROOT}/{extra}"):
            r2 = {json.loads(l)["id"]: json.loads(l) for l in open(f"{ROOT}/{extra}")}
            rs = [r2.get(r["id"], r) for r in rs]
    from collections import Counter
    print(Counter(r["outcome"] for r in rs))
    print("caught by:", Counter(r.get("by") for r in rs if r["outcome"] == "caught"))
    for r in rs:
        if r["outcome"] == "SURVIVED":
            print(f"SURVIVED [{r['id']}] {r['file']}:{r['line']} {r['kind']} {r.get('desc')} broken={r.get('broken')}")


if __name__ == "__main__":
    cmd = sys.argv[1] if len(sys.argv) > 1 else "report"
    args = sys.argv[2:]

    def opt(name, default):
        return type(default)(args[args.index(name) + 1]) if name in args else default

    if cmd == "enumerate":
        enumerate_mutants(opt("--seed", 0), opt("--max", 400), set(opt("--kinds", "").split(",")) - {""} or None)
    elif cmd == "run":
        only = [int(x) for x in opt("--only", "").split(",") if x] if "--only" in args else None
        run(opt("--workers", 16), only, opt("--out", "results.jsonl"))
    elif cmd == "recheck":
        # second pass over the mutants the first pass saw killed by the tests, with fewer workers and one retry
        os.environ["MS_RETRY"] = "1"
        killed = [json.loads(l)["id"] for l in open(f"{ROOT}/results.jsonl") if json.loads(l)["outcome"] == "killed-by-tests"]
        run(opt("--workers", 6), [i for i in killed if i >= 0], "results2.jsonl")
    elif cmd == "report":
        report()
    elif cmd == "clean":
        shutil.rmtree(ROOT, ignore_errors=True)
