#!/bin/sh
# MANIFEST.setup_cmd: warm the Lean build.  The tie files (ConstTie.lean, GenTie.lean) are regenerated from /repo's current
# source first, exactly as every check does, so that a stale generated file in the checkout can never break the setup
# (that happened once: a GenTie.lean produced while a seeded change was applied had been committed).  A module that
# does not build is NOT a setup failure - each check builds and reports its own obligations - only a missing driver is.
DIR="$(cd "$(dirname "$0")/.." && pwd)"
REPO="${VERIF_REPO:-/repo}"
export PYTHONPATH="$REPO/src:$DIR"
export PYTHONDONTWRITEBYTECODE=1
cd "$DIR" && exec /venv/bin/python - <<'PY'
import os, sys
from harness import core
log = []
try:
    ok, mods = core.lean_build(log, None)
except core.Infra as exc:
    print(exc); sys.exit(1)
print("\n".join(l[-1500:] for l in log))
print("setup: full build", "ok" if ok and mods == ["SomeipModel"] else "incomplete (checks build their own modules)")
sys.exit(0 if os.path.exists(core.DRIVER) else 1)
PY
