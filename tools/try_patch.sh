#!/bin/sh
# usage: tools/try_patch.sh <patch> <check args...>   -- applies a patch to /repo, runs ./check, reverts
P="$1"; shift
cd /repo && git apply "$P" || { echo "PATCH DOES NOT APPLY"; exit 3; }
mkdir -p /tmp/verif-evidence-scratch
cd /verif && VERIF_EVIDENCE_DIR=/tmp/verif-evidence-scratch ./check "$@" 2>/dev/null | grep -v "^KNOWN-FINDING" | tail -4
git -C /repo checkout -- .
