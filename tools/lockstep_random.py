import sys, random
sys.path.insert(0,'/verif'); sys.path.insert(0,'/repo/src')
import logging; logging.disable(logging.CRITICAL)
import someip.config as C, someip.header as H
from harness import core, stackdrv as SDV, sdio, scen
m = core.Model()
W = {"offer":5,"stopoffer":2,"reboot":2,"sub":4,"stopsub":2,"subreboot":1,"find":2,"watch":4,"life":2,"csub":2,"nak":1}
ndiv=0
N=int(sys.argv[1]) if len(sys.argv)>1 else 50
for seed in range(int(sys.argv[2]) if len(sys.argv)>2 else 0, N):
    rng=random.Random(seed)
    tm = SDV.TimingsSpec(initMin=0, initMax=rng.choice([0,20]), reps=rng.choice([0,2]), base=10, cyclic=rng.choice([0,100,1000]), coll=rng.choice([0,5]),
                         refresh=rng.choice([None,300,3000]), rrMin=10, rrMax=rng.choice([10,50]), annTtl=rng.choice([3,0xFFFFFF]), subTtl=rng.choice([5,0xFFFFFF]))
    svcs=[C.Service(0x1111,1,1,1,eventgroups=frozenset({5,6})), C.Service(0x2222,1,1,7,eventgroups=frozenset({5}))][:rng.randrange(0,3)]
    sc=scen.Scenario(rng, tm, svcs, W, nsteps=80)
    r=scen.execute(m, sc)
    if r['div'] is not None:
        ndiv+=1
        d=r['div']
        print("seed",seed,"DIV at",d,"of",len(r['events']))
        if d>=0:
            print("  ev:", r['events'][d][:200]); print("  I:", r['impl'][d][:600]); print("  M:", r['model'][d][:600])
        else: print(r['first'])
        for i in range(max(0,d-7), d+1): print("   ", i, r["events"][i][:150], "\n       I:", r["impl"][i][:300], "\n       M:", r["model"][i][:300])
        if ndiv>=3: break
print("done", ndiv)
