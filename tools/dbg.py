import sys, json
sys.path.insert(0,'/verif'); sys.path.insert(0,'/repo/src')
import logging; logging.disable(logging.CRITICAL)
from harness import core
import importlib
pid=sys.argv[1]
mod=importlib.import_module(f'harness.props.{pid.lower()}')
ctx=core.Ctx(pid, sys.argv[2] if len(sys.argv)>2 else 'quick', int(sys.argv[3]) if len(sys.argv)>3 else 0)
rep=mod.run(ctx)
print(rep.evaluations, len(rep.nontrivial), len(rep.disagreements), len(rep.violations))
for d in rep.disagreements[:int(sys.argv[4]) if len(sys.argv)>4 else 8]:
    print('DIS', d['op'][:150]); print('  model:', d['model'][:200]); print('  impl :', d['impl'][:200])
seen=set()
for v in rep.violations:
    if v['signature'] in seen: continue
    seen.add(v['signature']); print('VIO', v['signature'], v['what'][:300])
print(dict(rep.dist))
